---------------------------- MODULE MMRTrace ----------------------------
(* Direction B for C07: events recorded from the real pmmr.rs functions are     *)
(* accepted iff every logged return value equals the defining construction     *)
(* (events Push / Node / Fam / Size) or, beyond the constructed range, the     *)
(* closed forms that MC_MMR proved equal to the construction (event Big).      *)
EXTENDS MMR, TLC, Json, IOUtils
Rec == ndJsonDeserialize(IOEnv.TRACE)
VARIABLE l
tvars == <<m, l>>

IsEvent(k) == l <= Len(Rec) /\ Rec[l].k = k /\ l' = l + 1
E == Rec[l]

TInit == m = Empty /\ l = 1

TPush == /\ IsEvent("Push")
         /\ m' = AppendLeaf(m)
         /\ E.pos = m'.lp[NL(m')]
         /\ E.size = Size(m')
         /\ E.peaks = m'.pk
         /\ E.nleaves = NL(m')
         /\ E.pmh = <<SumPow2Ht(m', 1), 0>>

\* a size strictly inside the last merge sequence (not a valid MMR size)
TSize == /\ IsEvent("Size") /\ UNCHANGED m
         /\ E.sz \in NewFrom(m)+1..Size(m)-1
         /\ E.peaks = <<>>
         /\ E.nleaves = NL(m)

OptLeafIdx(s, p) == IF IsLeafD(s, p) THEN SeqIndex(s.lp, p) - 1 ELSE -1
NextLeafPos(s, p) == IF IsLeafD(s, p) THEN p ELSE
                     LET c == {q \in p..Size(s)-1 : IsLeafD(s, q)} IN
                     IF c = {} THEN Size(s) ELSE CHOOSE q \in c : \A q2 \in c : q <= q2

TNode == /\ IsEvent("Node") /\ UNCHANGED m
         /\ E.p < Size(m)
         /\ E.height = Ht(m, E.p)
         /\ E.is_leaf = IsLeafD(m, E.p)
         /\ E.leftmost = LeftmostD(m, E.p)
         /\ E.rightmost = RightmostD(m, E.p)
         /\ E.range = <<LeftmostD(m, E.p), E.p + 1>>
         /\ E.leaf_idx = OptLeafIdx(m, E.p)
         /\ (IsLeafD(m, E.p) => E.ins2pos = E.p)
         /\ E.round_up = NextLeafPos(m, E.p)
         /\ E.nleaves_to = Cardinality({q \in 0..E.p-1 : IsLeafD(m, q)})

TFam == /\ IsEvent("Fam") /\ UNCHANGED m
        /\ E.p < Size(m) /\ Par(m, E.p) # -1
        /\ E.family = <<Par(m, E.p), Sibling(m, E.p)>>
        /\ E.is_left = IsLeftD(m, E.p)
        /\ E.branch = BranchPairsD(m, E.p)

TBig == /\ IsEvent("Big") /\ UNCHANGED m
        /\ E.pmh = PeakMapHeight(E.p)
        /\ E.height = HeightC(E.p)
        /\ E.family = FamilyC(E.p)
        /\ E.is_left = IsLeftSiblingC(E.p)
        /\ E.leaf_idx = LeafToInsertionIndexC(E.p)
        /\ E.round_up = RoundUpToLeafPosC(E.p)
        /\ E.leftmost = LeftmostC(E.p)
        /\ E.rightmost = RightmostC(E.p)
        /\ E.nleaves = NLeavesC(E.p)
        /\ E.peaks = PeaksC(E.p)
        /\ E.ins2pos = InsertionToPmmrIndexC(E.n)

TNext == TPush \/ TSize \/ TNode \/ TFam \/ TBig
TSpec == TInit /\ [][TNext]_tvars

Accepted == LET d == TLCGet("stats").diameter IN
            IF d - 1 = Len(Rec) THEN TRUE
            ELSE Print(<<"TRACE-REJECTED at event", d, IF d <= Len(Rec) THEN Rec[d] ELSE "eof">>, FALSE)
=========================================================================
