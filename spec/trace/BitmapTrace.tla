---------------------------- MODULE BitmapTrace ----------------------------
(* Direction B for C15: events recorded from a real grin chain (harness/bitmap, *)
(* `record`: Chain::process_block; `direct`: txhashset::extending { rewind,     *)
(* apply_block, force_rollback } on a real TxHashSet, several chunks, every     *)
(* recording starts with an Init event) are accepted iff, replaying the logged  *)
(* deltas through the actions                                                   *)
(* of Bitmap.tla (ApplyBlock / RewindTo / Reopen),                              *)
(*   - the node's real leaf set, the bits held by its real accumulator and the  *)
(*     set the harness built its from-scratch commitment from all equal the     *)
(*     model's unspent set, the leaf count equals the model's size,             *)
(*   - the real accumulator has as many chunks as the model's incremental one   *)
(*     and as FromScratch, and                                                  *)
(*   - the real bitmap root equals the from-scratch root (computed by the       *)
(*     harness from the specification's hash term, not by the accumulator).     *)
(* Probe = a read-only Extension::rewind (state restored afterwards).           *)
(* Apply / Stay of a delivered block also carry what its header commits to      *)
(* (HdrOK): a block is accepted only if that is the from-scratch bitmap of its  *)
(* own state - next block, reorganisation winner or losing-fork block alike.    *)
(* Stay  = a delivery that must leave the state untouched (losing fork block    *)
(*         applied in a rolled-back extension, refused block, a finished        *)
(*         read-only extension): the COMMITTED root must still be from-scratch. *)
EXTENDS Bitmap, TLC, Json, IOUtils
Rec == ndJsonDeserialize(IOEnv.TRACE)
VARIABLE l
TracePool == 0..5999          \* leaf indices a recorded chain may use
TraceSizes == 0..6000
tvars == <<uns, size, acc, l>>

E == Rec[l]
IsEvent(k) == l <= Len(Rec) /\ Rec[l].k = k /\ l' = l + 1
Ranges(rs) == UNION {r[1]..r[2] : r \in ToSet(rs)}

ObsOK(e, st) ==
  e.obs =>
    /\ Ranges(e.leaf) = st.uns
    /\ e.nleaves = st.size
    /\ Ranges(e.accbits) = st.uns
    /\ Ranges(e.fs) = st.uns
    /\ e.fs_nchunks = Len(FromScratch(st.uns, st.size))
    /\ e.nchunks = Len(st.acc)
    /\ st.acc = FromScratch(st.uns, st.size)
    /\ e.root_real = e.root_fs
    /\ e.root_acc = e.root_fs

\* A delivered block carries hdr_root (what its header commits to) and hdr_root_fs, the commitment the property
\* demands for the block's OWN state, computed by the harness without OutputRoots::root: header versions 1, 2 ->
\* the bare root of the output PMMR (reference MMR of the harness); from version 3 on ->
\* H(output_mmr_size | output PMMR root | from-scratch bitmap root).
\* Whatever the delivery class (next block, reorganisation, block that stays on a losing fork):
\* accepted => the header commits to exactly that; anything else => refused.
HdrOK(e) ==
  ("hdr_root" \in DOMAIN e /\ "hdr_root_fs" \in DOMAIN e) =>
    /\ (e.res # "reject") => (e.hdr_root = e.hdr_root_fs)
    /\ (e.hdr_root # e.hdr_root_fs) => (e.res = "reject")

TInit == l = 1 /\ uns = {} /\ size = 0 /\ acc = <<>>

TStart ==
  /\ IsEvent("Init")
  /\ LET u == Ranges(E.uns) IN
     LET st == St(u, E.size, AccInit(LeafIter(u, 0), E.size)) IN Become(st) /\ ObsOK(E, st)

TApply ==
  /\ IsEvent("Apply")
  /\ E.res = E.exp
  /\ HdrOK(E)
  /\ ApplyBlock(ToSet(E.spent), size..(E.newsize - 1), E.newsize)
  /\ ObsOK(E, ApplyBlockF(Cur, ToSet(E.spent), size..(E.newsize - 1), E.newsize))

TRewind ==
  /\ IsEvent("Rewind")
  /\ RewindTo(E.newsize, ToSet(E.respent))
  /\ ObsOK(E, RewindToF(Cur, E.newsize, ToSet(E.respent)))

TProbe ==
  /\ IsEvent("Probe")
  /\ E.newsize \in Sizes /\ E.newsize <= size
  /\ ToSet(E.respent) \subseteq ({i \in Pool : i < E.newsize} \ uns)
  /\ ObsOK(E, RewindToF(Cur, E.newsize, ToSet(E.respent)))
  /\ UNCHANGED vars

TReopen == IsEvent("Reopen") /\ Reopen /\ ObsOK(E, ReopenF(Cur))

TStay == IsEvent("Stay") /\ E.res = E.exp /\ HdrOK(E) /\ ObsOK(E, Cur) /\ UNCHANGED vars

TNext == TStart \/ TApply \/ TRewind \/ TProbe \/ TReopen \/ TStay
TSpec == TInit /\ [][TNext]_tvars

Accepted == LET d == TLCGet("stats").diameter IN
            IF d - 1 = Len(Rec) THEN TRUE
            ELSE Print(<<"TRACE-REJECTED at event", d, IF d <= Len(Rec) THEN Rec[d].k ELSE "eof">>, FALSE)
============================================================================
