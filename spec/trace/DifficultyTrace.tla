--------------------------- MODULE DifficultyTrace ---------------------------
(***************************************************************************)
(* Direction B for the retarget: every recorded call                        *)
(*   consensus::next_difficulty(height, window) under chain type ct         *)
(* (random windows on all four chain types, and the values used along real  *)
(* chains) is accepted iff the returned difficulty and secondary scaling    *)
(* equal Difficulty.tla's, and the retarget properties hold on it.          *)
(* Event: [k |-> "Diff", ct, h, w |-> <<<<ts, diff, scal, sec01>>, ...>>    *)
(*         (latest first), diff, scal]  (diff = -1: the call panicked)      *)
(* The functions the header rules take their numbers from are bound the     *)
(* same way (a result of -1 = the call panicked = refused):                 *)
(*   GraphWeight [ct, h, eb, ret]     consensus::graph_weight(h, eb)        *)
(*   Version     [ct, h, ret, valid]  consensus::header_version(h) and      *)
(*                                    valid_header_version(h, v), v = 1..6  *)
(*   Params      [ct, ...]            global::min_edge_bits, base_edge_bits,*)
(*                                    proofsize, initial_graph_weight,      *)
(*                                    min_wtema_graph_weight,               *)
(*                                    max_block_weight                      *)
(*   PowDiff     [ct, h, eb, scaling, h30, ret]                             *)
(*                                    ProofOfWork::to_difficulty(h) of a    *)
(*                                    proof with edge_bits eb whose packed  *)
(*                                    nonces hash (own blake2b) to h30...   *)
(***************************************************************************)
EXTENDS Difficulty, TLC, Json, IOUtils

Rec == ndJsonDeserialize(IOEnv.TRACE)
VARIABLE l

E == Rec[l]
W == [i \in 1..Len(E.w) |-> Entry(E.w[i][1], E.w[i][2], E.w[i][3], E.w[i][4] = 1)]

TInit == l = 1
TDiff == /\ l <= Len(Rec) /\ E.k = "Diff" /\ l' = l + 1
         /\ LET p == ChainParams[E.ct] IN
            /\ InRange(p, E.h, W)
            /\ LET r == NextDifficulty(p, E.h, W) IN E.diff = r.diff /\ E.scal = r.scal
            /\ MinOK(p, E.h, W) /\ StepOK(p, E.h, W)
TGraphWeight ==
  /\ l <= Len(Rec) /\ E.k = "GraphWeight" /\ l' = l + 1
  /\ LET p == ChainParams[E.ct] IN
     /\ E.eb >= p.baseEdgeBits
     /\ E.ret = GraphWeight(p, E.h, E.eb)

TVersion ==
  /\ l <= Len(Rec) /\ E.k = "Version" /\ l' = l + 1
  /\ LET p == ChainParams[E.ct] IN
     /\ E.ret = HeaderVersion(p, E.h)
     /\ Len(E.valid) = 6
     /\ \A v \in 1..6 : (E.valid[v] = 1) = ValidHeaderVersion(p, E.h, v)

TParams ==
  /\ l <= Len(Rec) /\ E.k = "Params" /\ l' = l + 1
  /\ LET p == ChainParams[E.ct] IN
     /\ E.minEdgeBits = p.minEdgeBits /\ E.baseEdgeBits = p.baseEdgeBits /\ E.proofSize = p.proofSize
     /\ E.initialGraphWeight = p.initialGraphWeight /\ E.minWtema = p.minWtema
     /\ E.maxBlockWeight = p.maxBlockWeight

TPowDiff ==
  /\ l <= Len(Rec) /\ E.k = "PowDiff" /\ l' = l + 1
  /\ LET p == ChainParams[E.ct] IN
     /\ E.eb >= p.baseEdgeBits
     /\ ProofDifficultyOK(ProofScale(p, E.h, E.eb, E.scaling), E.h30, E.ret)

TSpec == TInit /\ [][TDiff \/ TGraphWeight \/ TVersion \/ TParams \/ TPowDiff]_l

Accepted == LET d == TLCGet("stats").diameter IN
            IF d - 1 = Len(Rec) THEN TRUE
            ELSE Print(<<"TRACE-REJECTED at event", d, IF d <= Len(Rec) THEN Rec[d] ELSE "eof">>, FALSE)
=============================================================================
