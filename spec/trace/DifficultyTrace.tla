--------------------------- MODULE DifficultyTrace ---------------------------
(***************************************************************************)
(* Direction B for the retarget: every recorded call                        *)
(*   consensus::next_difficulty(height, window) under chain type ct         *)
(* (random windows on all four chain types, and the values used along real  *)
(* chains) is accepted iff the returned difficulty and secondary scaling    *)
(* equal Difficulty.tla's, and the retarget properties hold on it.          *)
(* Event: [k |-> "Diff", ct, h, w |-> <<<<ts, diff, scal, sec01>>, ...>>    *)
(*         (latest first), diff, scal]  (diff = -1: the call panicked)      *)
(***************************************************************************)
EXTENDS Difficulty, TLC, Json, IOUtils

Rec == ndJsonDeserialize(IOEnv.TRACE)
VARIABLE l

E == Rec[l]
W == [i \in 1..Len(E.w) |-> Entry(E.w[i][1], E.w[i][2], E.w[i][3], E.w[i][4] = 1)]

TInit == l = 1
TDiff == /\ l <= Len(Rec) /\ E.k = "Diff" /\ l' = l + 1
         /\ LET p == ChainParams[E.ct] IN
            /\ InRange(p, E.h, W)
            /\ LET r == NextDifficulty(p, E.h, W) IN E.diff = r.diff /\ E.scal = r.scal
            /\ MinOK(p, E.h, W) /\ StepOK(p, E.h, W)
TSpec == TInit /\ [][TDiff]_l

Accepted == LET d == TLCGet("stats").diameter IN
            IF d - 1 = Len(Rec) THEN TRUE
            ELSE Print(<<"TRACE-REJECTED at event", d, IF d <= Len(Rec) THEN Rec[d] ELSE "eof">>, FALSE)
=============================================================================
