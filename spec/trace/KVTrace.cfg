SPECIFICATION TSpec
CONSTANTS
  NS = 2
  NK = 60
  Vals <- TraceVals
  MaxDepth = 3
  NR = 2
  NT = 2
  Writers = {1, 2}
  ItThreads = {1, 2}
  RdThreads = {1, 2}
  MapInit = 10
  UsedInit = 0
  Chunk = 10
  PutCost = 0
  TxnBeforeGate = FALSE
  NestedCloseClearsMark = FALSE
  ReadNotCounted = FALSE
  SqueezedFits = TRUE
  ReopenClampsMap = FALSE
  LiveSized = FALSE
  Page = 7
  PageBySkipCur = FALSE
  PageFreshSnap = FALSE
  BatchMax = 1
POSTCONDITION Accepted
CHECK_DEADLOCK FALSE
