SPECIFICATION TSpec
CONSTANTS
  NS = 2
  NK = 60
  Vals <- TraceVals
  MaxDepth = 3
  NR = 1
  MapInit = 10
  Chunk = 10
  PutCost = 0
  TxnBeforeGate = FALSE
  BatchMax = 1
POSTCONDITION Accepted
CHECK_DEADLOCK FALSE
