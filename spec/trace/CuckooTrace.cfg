SPECIFICATION TSpec
CONSTANTS
  Graphs <- NoGraphs
POSTCONDITION Accepted
CHECK_DEADLOCK FALSE
