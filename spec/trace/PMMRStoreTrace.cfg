SPECIFICATION TSpec
CONSTANTS
  MaxLeaves = 100000
  MaxUnits = 100000
  MaxAppends = 100000
  MaxRemoves = 100000
  Stride = 4096
INVARIANTS NoLiveLeafGone
POSTCONDITION Accepted
CHECK_DEADLOCK FALSE
