----------------------------- MODULE HeaderTrace -----------------------------
(***************************************************************************)
(* Direction B for C04 (deciding): events recorded from a real-PoW chain    *)
(* (AutomatedTesting, Options::NONE) are accepted iff every verdict class   *)
(* (accept / reject) equals the one Header.tla's action for that entry      *)
(* point yields, the state `known` evolving by the specification's own      *)
(* actions.  Events:                                                        *)
(*   Reset  genesis                    a fresh node                         *)
(*   Header h, skip                    Chain::process_block_header          *)
(*   Sync   hs, skip                   Chain::sync_block_headers            *)
(*   Block  h                          Chain::process_block                 *)
(*   Read   h, now                     deserialize::<UntrustedBlockHeader>  *)
(***************************************************************************)
EXTENDS Header, TLC, Json, IOUtils

Rec == ndJsonDeserialize(IOEnv.TRACE)
VARIABLE l
tvars == <<known, l>>

IsEvent(k) == l <= Len(Rec) /\ Rec[l].k = k /\ l' = l + 1
E == Rec[l]

Cls(res) == IF res = "ok" THEN "accept" ELSE "reject"

TInit == known = << >> /\ l = 1

TReset == /\ IsEvent("Reset")
          /\ E.ct = CT
          /\ known' = (E.genesis.id :> E.genesis)

THeader == /\ IsEvent("Header")
           /\ \E res \in {ProcessHeaderRes(E.h, known, E.skip)} :
                 ProcessBlockHeader(E.h, E.skip, res) /\ E.verdict = Cls(res)

TSync == /\ IsEvent("Sync")
         /\ \E res \in {SyncRes(E.hs, known, E.skip)} :
               SyncBlockHeaders(E.hs, E.skip, res) /\ E.verdict = Cls(res)

TBlock == /\ IsEvent("Block")
          /\ \E res \in {"ok", "body_mismatch", ProcessHeaderRes(E.h, known, E.skip)} :
                ProcessBlock(E.h, E.skip, res) /\ E.verdict = Cls(res)

TRead == /\ IsEvent("Read")
         /\ \E res \in {ReadCheck(E.h, E.now)} :
               ReadUntrusted(E.h, E.now, res) /\ E.verdict = Cls(res)

TNext == TReset \/ THeader \/ TSync \/ TBlock \/ TRead
TSpec == TInit /\ [][TNext]_tvars

Accepted == LET d == TLCGet("stats").diameter IN
            IF d - 1 = Len(Rec) THEN TRUE
            ELSE Print(<<"TRACE-REJECTED at event", d, IF d <= Len(Rec) THEN Rec[d] ELSE "eof">>, FALSE)
=============================================================================
