----------------------------- MODULE HeaderTrace -----------------------------
(***************************************************************************)
(* Direction B for C04 (deciding): events recorded from a real-PoW chain    *)
(* (AutomatedTesting) are accepted iff every verdict class (accept /        *)
(* reject) equals the one Header.tla's action for that entry point yields   *)
(* and the headers the real node has stored afterwards are the ones in      *)
(* `known`, which evolves by the specification's own actions.  Every call   *)
(* is logged with the Options it was made with (`opts`, a list of names     *)
(* out of SKIP_POW / SYNC / MINE; the harness uses the sets the node uses:  *)
(* none, SYNC, MINE, plus SKIP_POW combinations).  Events:                  *)
(*   Reset  genesis                    a fresh node                         *)
(*   Header h, opts, stored            Chain::process_block_header          *)
(*   Sync   hs, opts, stored[]         Chain::sync_block_headers            *)
(*   Block  h, opts, stored            Chain::process_block                 *)
(*   Read   h, now                     deserialize::<UntrustedBlockHeader>  *)
(*   Wire   w, hs, now0, now1, opts,   a message of wrapping w read by the  *)
(*          stored[]                   real Untrusted* reader, then the     *)
(*                                     adapter's pipeline call              *)
(* The reader consults the wall clock at some instant between now0 and now1 *)
(* (whole seconds, logged just before / after the read); ReadCheck is       *)
(* monotone in the clock, so the verdict must be the one the specification  *)
(* yields for now0 or for now1.                                             *)
(* `stored` = get_block_header(hash) succeeds after the call.               *)
(***************************************************************************)
EXTENDS Header, TLC, Json, IOUtils

Rec == ndJsonDeserialize(IOEnv.TRACE)
VARIABLE l
tvars == <<known, l>>

IsEvent(k) == l <= Len(Rec) /\ Rec[l].k = k /\ l' = l + 1
E == Rec[l]

Cls(res) == IF res = "ok" THEN "accept" ELSE IF res = "orphan" THEN "orphan" ELSE "reject"

Opts == {E.opts[i] : i \in DOMAIN E.opts}
OptsOK == Opts \subseteq Options
Has(h) == h.id \in DOMAIN known'

TInit == known = << >> /\ l = 1

TReset == /\ IsEvent("Reset")
          /\ E.ct = CT
          /\ known' = (E.genesis.id :> E.genesis)

THeader == /\ IsEvent("Header")
           /\ OptsOK
           /\ \E res \in {ProcessHeaderRes(E.h, known, Opts)} :
                 ProcessBlockHeader(E.h, Opts, res) /\ E.verdict = Cls(res)
           /\ E.stored = Has(E.h)

TSync == /\ IsEvent("Sync")
         /\ OptsOK
         /\ \E res \in {SyncRes(E.hs, known, Opts)} :
               SyncBlockHeaders(E.hs, Opts, res) /\ E.verdict = Cls(res)
         /\ \A i \in DOMAIN E.hs : E.stored[i] = Has(E.hs[i])

TBlock == /\ IsEvent("Block")
          /\ OptsOK
          /\ \E res \in {"ok", "body_mismatch", "orphan", PowOnly(E.h), ProcessHeaderRes(E.h, known, Opts)} :
                ProcessBlock(E.h, Opts, res) /\ E.verdict = Cls(res)
          /\ E.stored = Has(E.h)

TRead == /\ IsEvent("Read")
         /\ \E res \in {ReadCheck(E.h, E.now)} :
               ReadUntrusted(E.h, E.now, res) /\ E.verdict = Cls(res)

TWire == /\ IsEvent("Wire")
         /\ OptsOK /\ E.w \in Wrappings /\ Opts \in WireOpts(E.w)
         /\ Len(E.hs) >= 1 /\ (E.w # "Headers" => Len(E.hs) = 1)
         /\ E.now0 <= E.now1
         /\ \E now \in {E.now0, E.now1} :
              \E res \in {WireRead(E.hs, now), "ok", "body_mismatch", "orphan", PowOnly(E.hs[1]),
                          ProcessHeaderRes(E.hs[1], known, Opts), SyncRes(E.hs, known, Opts)} :
                 Receive(E.w, E.hs, now, Opts, res) /\ E.verdict = Cls(res)
         /\ \A i \in DOMAIN E.hs : E.stored[i] = Has(E.hs[i])

TNext == TReset \/ THeader \/ TSync \/ TBlock \/ TRead \/ TWire
TSpec == TInit /\ [][TNext]_tvars

Accepted == LET d == TLCGet("stats").diameter IN
            IF d - 1 = Len(Rec) THEN TRUE
            ELSE Print(<<"TRACE-REJECTED at event", d, IF d <= Len(Rec) THEN Rec[d] ELSE "eof">>, FALSE)
=============================================================================
