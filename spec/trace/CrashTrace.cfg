SPECIFICATION TSpec
CONSTANT Scenarios <- ScenariosFromFile
POSTCONDITION Accepted
CHECK_DEADLOCK FALSE
