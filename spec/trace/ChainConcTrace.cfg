SPECIFICATION TSpec
CONSTANTS
  Trunk <- TrunkFromFile
  MaxBlocks = 0
  Diffs = {1}
  Pool <- PoolFromFile
  PoolVal <- PoolValOf
  Maturity = 3
  Flags = {}
  MaxDeliveries = 0
  HeadersFirst = FALSE
  TxShapes = "none"
  TreeIn <- TreeFromFile
  Threads <- ThreadsFromFile
  Prog <- ProgFromFile
  MaxOrphans <- MaxOrphansFromFile
CONSTRAINT Mark
POSTCONDITION TraceAccepted
CHECK_DEADLOCK FALSE
