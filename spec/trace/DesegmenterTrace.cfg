INIT TraceInit
NEXT TNext
CONSTANTS
  Kinds = {"honest", "alt_leaf", "omit_leaf", "drop_proof", "alt_proof", "wrong_id", "wrong_tree", "stale", "poison_spent", "split_root"}
  BatchSize = 4
  ValidateFirst = TRUE
  RootCheck = TRUE
  ResetClearsBitmap = TRUE
CHECK_DEADLOCK FALSE
POSTCONDITION Accepted
INVARIANTS NeverFinaliseWrongRoots GoodRetryHasRoots
