INIT TraceInit
NEXT TNext
CONSTANTS
  Kinds = {"honest", "alt_leaf", "omit_leaf", "drop_proof", "alt_proof", "wrong_id", "wrong_tree", "stale"}
  BatchSize = 4
  ValidateFirst = TRUE
  RootCheck = TRUE
CHECK_DEADLOCK FALSE
POSTCONDITION Accepted
INVARIANTS NeverFinaliseWrongRoots OnlyGoodCached
