------------------------------ MODULE KVTrace ------------------------------
(* Direction B for C18. The trace is recorded from a real grin_store::Store:            *)
(*  * the events of every batch (Begin .. Commit|Drop, nested children, inside reads     *)
(*    with their results) in the serial order LMDB's writer mutex imposed on the batches *)
(*    of all writer threads; every such event must be the corresponding KV action, and   *)
(*    every logged inside-read result must equal the specification's;                    *)
(*  * observations made by other threads (OutGet / OutExists / OutIter on fresh read     *)
(*    transactions, iterators held open while commits go on), each stamped with          *)
(*    lo = number of commits that had RETURNED when the call started and                 *)
(*    hi = number of commits that had been CALLED when the call (for an iterator: its    *)
(*    opening) returned. The observation must be exactly KV's outside read taken in ONE  *)
(*    of the committed versions lo..hi: never a mixture, never a lost or a phantom write;*)
(*  * directed scenarios (h_kv nested / inflight) are recorded in their real, deterministic  *)
(*    order: store iterators held by a thread across its own lookups, batches and commits *)
(*    (OutIterOpen / OutIterNext / OutIterClose with the owning thread), and single-key   *)
(*    reads stopped in the middle of their value while another thread commits (ReadBegin   *)
(*    .. ReadEnd); these must be exactly KV's actions and yield exactly KV's results;      *)
(*  * Crash = the process ended (killed right before / right after commit(), or a clean  *)
(*    close): what is observed afterwards is the last committed version.                 *)
(* Assumption made explicit (KV!BatchMax): every recorded batch writes <= 60 KiB of      *)
(* values, i.e. stays below the 10 % (>= 25 pages of the initial 1 MiB test map) that    *)
(* needs_resize() keeps free when a batch is opened. Space accounting itself is switched *)
(* off here (PutCost = 0): the map size is not observable through the Store API; any     *)
(* failed operation (MDB_MAP_FULL included) is reported by the recorder as an error      *)
(* event, which no action of this specification matches.                                 *)
EXTENDS KV, TLC, Json, IOUtils

Rec == ndJsonDeserialize(IOEnv.TRACE)
TraceVals == 1..200000

VARIABLES l,     \* next event
          vers   \* window of committed versions: vers.maps[j - vers.lo + 1] = committed map after
                 \* the j-th commit since the last Reset, for the versions some later observation
                 \* may still refer to (Commit events carry keep = the oldest such version)
tvars == <<vars, l, vers>>

IsEvent(k) == l <= Len(Rec) /\ Rec[l].k = k /\ l' = l + 1
E == Rec[l]
\* the thread an event belongs to (the batches of the threaded runs are serial: thread 1 stands for their writers)
Th == IF "t" \in DOMAIN E THEN E.t ELSE 1

Vers0 == [lo |-> 0, maps |-> <<EmptyMap>>]
NextIdx == vers.lo + Len(vers.maps)
VerAt(j) == vers.maps[j - vers.lo + 1]
InWindow(j) == j >= vers.lo /\ j < NextIdx

TInit == Init /\ l = 1 /\ vers = Vers0

Same == UNCHANGED vers
TBegin       == IsEvent("Begin") /\ Begin(Th) /\ Same
TPut         == IsEvent("Put") /\ Put(E.sp, E.key, E.val) /\ Same
TDel         == IsEvent("Del") /\ Del(E.sp, E.key) /\ Same
TGet         == IsEvent("Get") /\ Get(E.sp, E.key) /\ act'.res = E.res /\ Same
TExists      == IsEvent("Exists") /\ Exists(E.sp, E.key) /\ act'.res = E.res /\ Same
TIter        == IsEvent("Iter") /\ Iter(E.sp) /\ act'.res = E.res /\ Same
TChild       == IsEvent("Child") /\ Child /\ Same
TCommitChild == IsEvent("CommitChild") /\ CommitChild /\ Same
TDropChild   == IsEvent("DropChild") /\ DropChild /\ Same
TDrop        == IsEvent("Drop") /\ Drop /\ Same
TCommit      == /\ IsEvent("Commit") /\ Commit /\ E.idx = NextIdx /\ E.keep <= E.idx
                /\ LET nlo == IF E.keep > vers.lo THEN E.keep ELSE vers.lo
                       all == Append(vers.maps, committed')
                   IN vers' = [lo |-> nlo, maps |-> SubSeq(all, nlo - vers.lo + 1, Len(all))]
TCrash       == IsEvent("Crash") /\ Crash /\ Same

\* outside reads: KV's OutGet / OutExists / OutIter evaluated in some version of the interval
TOutGet    == /\ IsEvent("OutGet") /\ UNCHANGED vars /\ Same
              /\ \E j \in E.lo..E.hi : InWindow(j) /\ OutGetRes(VerAt(j), E.sp, E.key) = E.res
TOutExists == /\ IsEvent("OutExists") /\ UNCHANGED vars /\ Same
              /\ \E j \in E.lo..E.hi : InWindow(j) /\ OutExistsRes(VerAt(j), E.sp, E.key) = E.res
TOutIter   == /\ IsEvent("OutIter") /\ UNCHANGED vars /\ Same
              /\ \E j \in E.lo..E.hi : InWindow(j) /\ IterRes(VerAt(j), E.sp) = E.res

\* store iterators held across other store calls, reads in flight (directed scenarios; exact order)
TOutIterOpen  == IsEvent("OutIterOpen") /\ OutIterOpen(Th, E.r, E.sp) /\ Same
TOutIterNext  == IsEvent("OutIterNext") /\ OutIterNext(E.r) /\ act'.res = E.res /\ Same
TOutIterClose == IsEvent("OutIterClose") /\ OutIterClose(E.r) /\ Same
TReadBegin    == IsEvent("ReadBegin") /\ ReadBegin(Th, E.sp, E.key) /\ Same
TReadEnd      == IsEvent("ReadEnd") /\ ReadEnd(Th) /\ act'.res = E.res /\ Same

\* next recorded run (a fresh store)
TReset == /\ IsEvent("Reset")
          /\ committed' = EmptyMap /\ stack' = <<>> /\ shadow' = <<>> /\ bown' = 0
          /\ snap' = [r \in Readers |-> NoSnap] /\ rd' = [t \in Threads |-> NoRd]
          /\ mapSize' = MapInit /\ used' = UsedInit /\ pend' = 0 /\ squeezed' = FALSE
          /\ resizing' = FALSE /\ wait' = [t \in Threads |-> "no"]
          /\ cnt' = 0 /\ mark' = [t \in Threads |-> 0] /\ torn' = FALSE
          /\ act' = [k |-> "Reset"]
          /\ vers' = Vers0

TNext == \/ TBegin \/ TPut \/ TDel \/ TGet \/ TExists \/ TIter \/ TChild \/ TCommitChild \/ TDropChild
         \/ TDrop \/ TCommit \/ TCrash \/ TOutGet \/ TOutExists \/ TOutIter \/ TReset
         \/ TOutIterOpen \/ TOutIterNext \/ TOutIterClose \/ TReadBegin \/ TReadEnd
TSpec == TInit /\ [][TNext]_tvars

Accepted == LET d == TLCGet("stats").diameter IN
            IF d - 1 = Len(Rec) THEN TRUE
            ELSE Print(<<"TRACE-REJECTED at event", d, IF d <= Len(Rec) THEN Rec[d] ELSE "eof">>, FALSE)
=============================================================================
