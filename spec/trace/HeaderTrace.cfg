SPECIFICATION TSpec
CONSTANTS
  ChainParams <- GrinChainParams
  CT = "AutomatedTesting"
  FTL = 300
POSTCONDITION Accepted
CHECK_DEADLOCK FALSE
