------------------------- MODULE ChainConcTrace -------------------------
(* Direction B for C17: the lock log of a real multi-threaded run, linearised by the global       *)
(* sequence numbers taken inside the critical sections, is accepted iff it is a behaviour of      *)
(* ChainConc.tla: every write section is the next section of that thread's program, every call    *)
(* result, every reader observation and the final state equal the model's.  Steps outside the     *)
(* chain locks (is_known / check_orphan / orphan-pool access) are not logged and are interleaved   *)
(* by TLC (silent steps).                                                                        *)
EXTENDS ChainConc, Json, IOUtils, TLC

Scen == JsonDeserialize(IOEnv.SCEN)
Rec == ndJsonDeserialize(IOEnv.TRACE)

ToSet(sq) == {sq[i] : i \in DOMAIN sq}
BlkOf(j) == [parent |-> j.parent, height |-> j.height, diff |-> j.diff,
             tx |-> [ins |-> ToSet(j.tx.ins), outs |-> ToSet(j.tx.outs), lock |-> j.tx.lock], flag |-> j.flag]
TreeFromFile == [i \in 0..(Len(Scen.tree) - 1) |-> BlkOf(Scen.tree[i + 1])]
ThreadsFromFile == 1..Len(Scen.progs)
ProgFromFile == [t \in ThreadsFromFile |-> Scen.progs[t]]
PoolFromFile == {Scen.pool[i][1] : i \in DOMAIN Scen.pool}
PoolValFromFile == [c \in PoolFromFile |-> (CHOOSE i \in DOMAIN Scen.pool : Scen.pool[i][1] = c) ]
PoolValOf == [c \in PoolFromFile |-> Scen.pool[PoolValFromFile[c]][2]]
TrunkFromFile == Scen.trunk
MaxOrphansFromFile == Scen.max_orphans

VARIABLES l, ended
tvars == <<tree, n, ndel, last, th, results, l, ended>>

E == Rec[l]
Live(c) == {n.u.outs[i].h : i \in {j \in n.u.unspent : n.u.outs[j].c = c}}

TInit == /\ CInit /\ l = 1 /\ ended = [t \in Threads |-> 0] /\ TLCSet(1, 1)

TSilent == /\ \E t \in Threads : Silent(t)
           /\ UNCHANGED <<tree, ndel, last, l, ended>>

TSec == /\ l <= Len(Rec) /\ E.k = "Sec"
        /\ LET t == E.t IN
             /\ (th[t].st = "idle" => ended[t] = th[t].i - 1)     \* the previous call has returned
             /\ Section(t)
        /\ l' = l + 1 /\ UNCHANGED <<tree, ndel, last, ended>>

TEnd == /\ l <= Len(Rec) /\ E.k = "End"
        /\ LET t == E.t IN
             /\ th[t].st = "idle" /\ th[t].i = E.i + 1
             /\ results[t][E.i] = E.res
             /\ ended' = [ended EXCEPT ![t] = E.i]
        /\ l' = l + 1 /\ UNCHANGED <<tree, n, ndel, last, th, results>>

TRead == /\ l <= Len(Rec) /\ E.k = "Read"
         /\ (IF E.val = -1 THEN Live(E.c) = {} ELSE Live(E.c) = {E.val})
         /\ l' = l + 1 /\ UNCHANGED <<tree, n, ndel, last, th, results, ended>>

\* validate_tx of block b's transaction under the read locks
TVtx == /\ l <= Len(Rec) /\ E.k = "VTx"
        /\ LET t == tree[E.b].tx IN
             E.ok = ((\A c \in t.ins : Live(c) # {}) /\ (\A c \in t.outs : Live(c) = {}))
        /\ l' = l + 1 /\ UNCHANGED <<tree, n, ndel, last, th, results, ended>>

\* the paginated UTXO scan (unspent_outputs_by_pmmr_index): one view of the committed state
TScan == /\ l <= Len(Rec) /\ E.k = "Scan"
         /\ E.ok /\ E.cnt = Cardinality(n.u.unspent) /\ E.nl = Len(n.u.outs)
         /\ l' = l + 1 /\ UNCHANGED <<tree, n, ndel, last, th, results, ended>>

\* views that involve the header MMR.  The header MMR is the chain of the HEADER head (it is rewound and
\* re-applied whenever the header head moves), so "the header at height h" is the ancestor of n.hhead at h, or
\* an error (-1) above it.  get_header_by_height(h):
HdrAtOf(h) == IF h <= Height(n.hhead) THEN AncAt(n.hhead, h) ELSE -1
THdrAt == /\ l <= Len(Rec) /\ E.k = "HdrAt"
          /\ E.id = HdrAtOf(E.h)
          /\ l' = l + 1 /\ UNCHANGED <<tree, n, ndel, last, th, results, ended>>
\* get_header_for_output(c): the creation height of the unspent instance of c (txhashset view) looked up in the
\* header MMR (header view), both read under ONE pair of read locks, i.e. in one state of the linearisation.
\* (Sequential meaning of the call as coded: the height is looked up in the header MMR, so with the header head on
\* another fork the answer is that fork's header - recorded as an observation outside the listed properties by the
\* probe `h_conc hfo`; what this event decides is that both parts come from the same committed state.)
THdrOf == /\ l <= Len(Rec) /\ E.k = "HdrOf"
          /\ E.id = (IF Live(E.c) = {} THEN -1 ELSE HdrAtOf(CHOOSE h \in Live(E.c) : TRUE))
          /\ l' = l + 1 /\ UNCHANGED <<tree, n, ndel, last, th, results, ended>>

THead == /\ l <= Len(Rec) /\ E.k = "Head"
         /\ E.head = n.head
         /\ l' = l + 1 /\ UNCHANGED <<tree, n, ndel, last, th, results, ended>>

TFinal == /\ l <= Len(Rec) /\ E.k = "Final"
          /\ AllDone
          /\ E.head = n.head /\ E.hhead = n.hhead
          /\ ToSet(E.unspent) = {<<n.u.outs[i].c, n.u.outs[i].h>> : i \in n.u.unspent}
          /\ E.nleaves = Len(n.u.outs)
          /\ ToSet(E.orph) = {n.orph[i] : i \in DOMAIN n.orph}
          /\ ToSet(E.bodies) = n.bodies /\ ToSet(E.hdrs) = n.hdrs
          /\ l' = l + 1 /\ UNCHANGED <<tree, n, ndel, last, th, results, ended>>

TNext == TSilent \/ TSec \/ TEnd \/ TRead \/ TVtx \/ TScan \/ THead \/ THdrAt \/ THdrOf \/ TFinal
TSpec == TInit /\ [][TNext]_tvars

\* high-water mark of consumed events (silent steps do not advance l)
Mark == TLCSet(1, IF l > TLCGet(1) THEN l ELSE TLCGet(1))
TraceAccepted == IF TLCGet(1) = Len(Rec) + 1 THEN TRUE
            ELSE Print(<<"TRACE-REJECTED at event", TLCGet(1), IF TLCGet(1) <= Len(Rec) THEN Rec[TLCGet(1)] ELSE "eof">>, FALSE)
=========================================================================
