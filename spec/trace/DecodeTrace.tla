---------------------------- MODULE DecodeTrace ----------------------------
(* Direction B for C11: the events recorded from the real decoders          *)
(* (harness/decode) are accepted iff every call is a behaviour of the call  *)
(* protocol of Decode.tla:                                                  *)
(*   Begin(dec, ct, ver, len, first frame) ; End(out, consumed, reads,      *)
(*        peak, served)                                                     *)
(*        out \in {ok, err}, consumed <= len, peak <= CallBound (the        *)
(*        decoder-only constant when the decoder refused; per frame type    *)
(*        for Codec::read), stream decoders: reads <= consumed (every       *)
(*        delivered message consumed at least one byte), a frame announcing *)
(*        more than the header check admits: 11 bytes consumed, nothing     *)
(*        delivered; every admitted Get*Segment request within ServeOK.     *)
(* Two event forms:                                                         *)
(*   individual  Begin / End pairs - every call whose outcome is not ok|err *)
(*               (panic caught in the worker; abort / hang recorded by the  *)
(*               parent after re-running the input alone in a fresh child), *)
(*               every call over the bound or over half of it               *)
(*   aggregated  Sum events per (decoder, reader, version, chain type):     *)
(*               n calls, ok + err = n, and the call with the highest       *)
(*               peak/bound ratio (wp bytes for wl input bytes)             *)
(*   Steps       the post-decode steps executed (name, count, count Ok);    *)
(*               every End names the step in progress when the call ended   *)
(* A non-conforming End does not stop the validation: TEndBad matches it,   *)
(* prints it (TRACE-BAD) and counts it, so that one run reports every       *)
(* distinct violation; acceptance requires bad = 0 and all events matched.  *)
EXTENDS Decode, TLC, Json, IOUtils
Rec == ndJsonDeserialize(IOEnv.TRACE)
VARIABLES l, bad
tvars == <<vars, l, bad>>

IsEvent(k) == l <= Len(Rec) /\ Rec[l].k = k /\ l' = l + 1
E == Rec[l]

TInit == Init /\ l = 1 /\ bad = 0 /\ TLCSet(1, 0)    \* register 1 mirrors `bad` for the postcondition

TBegin == /\ IsEvent("Begin")
          /\ Begin(E.dec, E.ct, E.ver, E.len, [ty |-> E.fty, len |-> E.flen])
          /\ (phase' = "stream") = E.stream
          /\ UNCHANGED bad

Conforms(e) == CallOK(cur.dec, cur.ct, cur.len, cur.fr, e.out, e.consumed, e.reads, e.peak, e.step, e.served)

\* the logged call, replayed on the machine: `reads` Read steps are summarised by their totals
Finish(e) == /\ last' = [out |-> e.out, used |-> e.consumed, reads |-> e.reads, peak |-> e.peak, len |-> cur.len, dec |-> cur.dec, ct |-> cur.ct,
                          step |-> e.step, fr |-> cur.fr, served |-> e.served]
             /\ phase' = "idle" /\ cur' = NoCall /\ used' = 0 /\ reads' = 0 /\ pstep' = 0

TEnd == /\ IsEvent("End")
        /\ phase \in {"call", "stream"}
        /\ Conforms(E)
        /\ Finish(E)
        /\ OutcomeOK' /\ ConsumedOK' /\ AllocBounded' /\ Progress' /\ StepKnown' /\ FrameLimitOK' /\ ServeBounded'
        /\ UNCHANGED bad

TEndBad == /\ IsEvent("End")
           /\ phase \in {"call", "stream"}
           /\ ~Conforms(E)
           /\ Finish(E)
           /\ bad' = bad + 1
           /\ TLCSet(1, bad + 1)
           /\ PrintT(<<"TRACE-BAD", l>>)

\* the aggregated call closest to its bound: wl input bytes, refused by the decoder (wr), first frame (wfty, wflen), wc consumed
SumOK(e) == /\ e.n = e.ok + e.err
            /\ e.wp <= CallBound(e.dec, e.ct, e.wl, [ty |-> e.wfty, len |-> e.wflen], IF e.wr THEN "err" ELSE "ok", e.wc)
            /\ e.maxpeak >= e.wp
TSum == /\ IsEvent("Sum") /\ phase = "idle"
        /\ SumOK(E)
        /\ UNCHANGED <<vars, bad>>
TSumBad == /\ IsEvent("Sum") /\ phase = "idle"
           /\ ~SumOK(E)
           /\ bad' = bad + 1
           /\ TLCSet(1, bad + 1)
           /\ PrintT(<<"TRACE-BAD", l>>)
           /\ UNCHANGED vars

\* the executed post-decode steps (name, how often, how often Ok): every one of them is a step of the catalogue
AllSteps == UNION {StepSet(d) : d \in SegmentDecoders \cup BitmapDecoders \cup BodyDecoders \cup StreamDecoders \cup
                      {"SegmentRequest::read", "TxKernel::read", "BlockHeader::read", "UntrustedBlockHeader::read", "MerkleProof::read",
                       "SegmentProof::read", "Hand::read", "Shake::read", "PeerAddrs::read", "PeerAddr::read", "Locator::read",
                       "TxHashSetArchive::read", "util::from_hex", "stratum::submit"}}
StepsOK(e) == /\ Len(e.names) = Len(e.n) /\ Len(e.names) = Len(e.ok)
              /\ \A i \in 1..Len(e.names) : e.names[i] \in AllSteps /\ e.ok[i] <= e.n[i]
TSteps == /\ IsEvent("Steps") /\ phase = "idle"
          /\ StepsOK(E)
          /\ UNCHANGED <<vars, bad>>
TStepsBad == /\ IsEvent("Steps") /\ phase = "idle"
             /\ ~StepsOK(E)
             /\ bad' = bad + 1
             /\ TLCSet(1, bad + 1)
             /\ PrintT(<<"TRACE-BAD", l>>)
             /\ UNCHANGED vars

TNext == TBegin \/ TEnd \/ TEndBad \/ TSum \/ TSumBad \/ TSteps \/ TStepsBad
TSpec == TInit /\ [][TNext]_tvars

Accepted == LET d == TLCGet("stats").diameter IN
            IF d - 1 = Len(Rec) /\ TLCGet(1) = 0 THEN TRUE
            ELSE IF d - 1 = Len(Rec) THEN Print(<<"TRACE-REJECTED bad events", TLCGet(1)>>, FALSE)
            ELSE Print(<<"TRACE-REJECTED at event", d, IF d <= Len(Rec) THEN Rec[d] ELSE "eof">>, FALSE)
=============================================================================
