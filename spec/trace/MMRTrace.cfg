SPECIFICATION TSpec
CONSTANTS
  MaxLeaves = 100000
  TermLeaves = 0
POSTCONDITION Accepted
CHECK_DEADLOCK FALSE
