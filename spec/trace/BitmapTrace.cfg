SPECIFICATION TSpec
CONSTANTS
  NBITS = 1024
  UseLoop = FALSE
  Proto = "code"
  RequireLastLeaf = TRUE
  Pool <- TracePool
  Sizes <- TraceSizes
POSTCONDITION Accepted
CHECK_DEADLOCK FALSE
