---------------------------- MODULE CuckooTrace ----------------------------
(* Direction B for C05: every recorded call of the real PoWContext::verify *)
(* (event Verify: variant, N, K, the nonce list handed to verify, the      *)
(* endpoints of the listed in-range edges, the verdict) is accepted iff    *)
(* the verdict equals Accept of Cuckoo.tla evaluated on the listed edges.  *)
(* Event Pack: Proof bit layout (nonce i occupies bits i*w .. (i+1)*w-1 of *)
(* a little-endian byte string, zero padded to a byte).                    *)
EXTENDS Cuckoo, TLC, Json, IOUtils
Rec == ndJsonDeserialize(IOEnv.TRACE)
NoGraphs == <<>>
VARIABLE l
tvars == <<g, path, closed, l>>

IsEvent(k) == l <= Len(Rec) /\ Rec[l].k = k /\ l' = l + 1
Ev == Rec[l]

\* the graph as far as the event lists it: E is defined on the listed edge indices only
GraphOf(e) == [variant |-> e.variant, K |-> e.K, N |-> e.N,
               E |-> [i \in {e.ends[j][1] + 1 : j \in 1..Len(e.ends)} |->
                        LET j == CHOOSE j \in 1..Len(e.ends) : e.ends[j][1] + 1 = i
                        IN <<e.ends[j][2], e.ends[j][3]>>]]

Listed(e) == {e.ends[j][1] : j \in 1..Len(e.ends)}
InRangeNonces(e) == {e.nonces[i] : i \in 1..Len(e.nonces)} \cap (0..e.N - 1)

TInit == g = 0 /\ path = <<>> /\ closed = FALSE /\ l = 1

TVerify == /\ IsEvent("Verify")
           /\ UNCHANGED <<g, path, closed>>
           /\ Ev.variant \in Variants
           \* the record lists the endpoints of exactly the in-range nonces it mentions
           /\ Listed(Ev) = InRangeNonces(Ev)
           /\ \A j \in 1..Len(Ev.ends) : /\ Ev.ends[j][2] \in 0..NodeCount(Ev.variant, Ev.N) - 1
                                         /\ Ev.ends[j][3] \in 0..NodeCount(Ev.variant, Ev.N) - 1
           /\ Ev.verdict \in {"accept", "reject"}
           /\ (Ev.verdict = "accept") <=> Accept(GraphOf(Ev), Ev.nonces)
           \* internal consistency of the two definitional forms on everything seen
           /\ Cardinality(Listed(Ev)) >= 2 =>
                 Assert(IsSimpleCycle(GraphOf(Ev), Listed(Ev)) <=> IsSimpleCycleDeg(GraphOf(Ev), Listed(Ev)),
                        <<"SPEC-INCONSISTENT walk form and degree form disagree", Ev>>)

\* bits of the packed proof: bit b belongs to nonce (b \div w), position (b % w)
BitOf(x, i) == (x \div (2 ^ i)) % 2
PackedBit(ns, w, b) == IF b \div w < Len(ns) THEN
                          (IF b % w < 31 THEN BitOf(ns[(b \div w) + 1], b % w) ELSE 0)
                       ELSE 0
PackedByte(ns, w, j) == LET B(i) == PackedBit(ns, w, 8 * j + i) IN
                        B(0) + 2 * B(1) + 4 * B(2) + 8 * B(3) + 16 * B(4) + 32 * B(5) + 64 * B(6) + 128 * B(7)
PackLen(n, w) == (n * w + 7) \div 8
TPack == /\ IsEvent("Pack")
         /\ UNCHANGED <<g, path, closed>>
         /\ Ev.len = PackLen(Len(Ev.nonces), Ev.w)
         /\ Ev.bytes = [j \in 1..Ev.len |-> PackedByte(Ev.nonces, Ev.w, j - 1)]
         /\ Ev.roundtrip = TRUE
         \* every single padding bit set is refused; there are 8*len - n*w of them
         /\ Ev.pad_bits = 8 * Ev.len - Len(Ev.nonces) * Ev.w
         /\ Ev.pad_refused = Ev.pad_bits

\* create_pow_context: the verifier built for (chain, header version of the height, edge bits) is
\* the one SelectVariant names; the event carries my endpoints of the nonces under every definition
TSelect == /\ IsEvent("Select")
           /\ UNCHANGED <<g, path, closed>>
           /\ LET sv == SelectVariant(Ev.chain, Ev.version, Ev.eb) IN
              IF sv = "none" THEN Ev.verdict = "noctx"
              ELSE LET G == GraphOf([variant |-> sv, K |-> Ev.K, N |-> Ev.N, ends |-> Ev.ends_by[sv]]) IN
                   /\ Ev.verdict \in {"accept", "reject"}
                   /\ (Ev.verdict = "accept") <=> Accept(G, Ev.nonces)
                   \* anti-vacuity: the listed nonces are a cycle under the definition they were found in
                   /\ Accept(GraphOf([variant |-> Ev.cycle_of, K |-> Ev.K, N |-> Ev.N, ends |-> Ev.ends_by[Ev.cycle_of]]), Ev.nonces)

\* create_pow_context where no cycle can be searched (28..31 edge bits): the harness observes WHICH
\* verifier was built by comparing its behaviour on a battery of probe tuples with the behaviour of
\* the five verifiers built directly (pow::new_*_ctx); "none": no verifier (an error is returned)
TSelectKind == /\ IsEvent("SelectKind")
               /\ UNCHANGED <<g, path, closed>>
               /\ Ev.chain \in Chains
               /\ Ev.version \in 1..5
               /\ Ev.probes >= 5
               /\ Ev.observed = SelectVariant(Ev.chain, Ev.version, Ev.eb)

\* consensus::graph_weight(height, edge_bits) under the chain type's reference size
TWeight == /\ IsEvent("Weight")
           /\ UNCHANGED <<g, path, closed>>
           /\ Ev.base = BaseEdgeBits(Ev.chain)
           /\ Ev.eb >= Ev.base
           /\ Ev.weight = GraphWeight(Ev.base, Ev.eb, Ev.height)

\* pow::verify_size(header): the header was built by the harness for a plan of MC_CuckooSize
\* (chain type, real header version of its height, edge bits, nonce list of the plan's length class
\* and shape). The verdict must be VerifySizeVerdict on my endpoints of the listed nonces, with the
\* required length taken from the chain type; the plan's expectation must be that same verdict
\* (the case really is what the plan says) and the shape must be what its name says.
EndsListed(e, var) == {e.ends_by[var][j][1] : j \in 1..Len(e.ends_by[var])}
TVerifySize ==
    /\ IsEvent("VerifySize")
    /\ UNCHANGED <<g, path, closed>>
    /\ Ev.chain \in Chains
    /\ Ev.P = ProofSize(Ev.chain)            \* the code's global::proofsize() is the spec's constant
    /\ Ev.lc \in LenClasses
    /\ Ev.L = LenClass(Ev.lc, Ev.P)
    /\ Len(Ev.nonces) = Ev.L
    /\ Ev.gof \in Variants
    /\ LET sv == SelectVariant(Ev.chain, Ev.version, Ev.eb)
           GB(var) == GraphOf([variant |-> var, K |-> Ev.P, N |-> Ev.N, ends |-> Ev.ends_by[var]])
           want == VerifySizeVerdict(Ev.chain, Ev.version, Ev.eb, Ev.P, GB, Ev.nonces)
           S == RangeOf(Ev.nonces)
       IN /\ sv = Ev.sv
          /\ \A var \in {sv, Ev.gof} \ {"none"} :
                /\ EndsListed(Ev, var) = InRangeNonces(Ev)
                /\ \A j \in 1..Len(Ev.ends_by[var]) :
                      /\ Ev.ends_by[var][j][2] \in 0..NodeCount(var, Ev.N) - 1
                      /\ Ev.ends_by[var][j][3] \in 0..NodeCount(var, Ev.N) - 1
          /\ Ev.expect = want
          /\ Ev.verdict = want
          /\ Ev.shape \in {"cycle", "unsorted"} => IsCycleAnyLen(GB(Ev.gof), S) /\ Cardinality(S) = Ev.L
          /\ Ev.shape = "cycle" => Ascending(Ev.nonces)
          /\ Ev.shape = "unsorted" => ~Ascending(Ev.nonces)
          /\ Ev.shape \in {"open", "two_cycles", "garbage"} => ~IsCycleAnyLen(GB(Ev.gof), S)
          /\ Ev.shape = "two_cycles" =>
                /\ \A j \in JunctionsOf(GB(Ev.gof), S) : GoodJunction(GB(Ev.gof), S, j)
                /\ ~Connected(GB(Ev.gof), S)

TNext == TVerify \/ TPack \/ TSelect \/ TSelectKind \/ TWeight \/ TVerifySize
TSpec == TInit /\ [][TNext]_tvars

Accepted == LET d == TLCGet("stats").diameter IN
            IF d - 1 = Len(Rec) THEN TRUE
            ELSE Print(<<"TRACE-REJECTED at event", d, IF d <= Len(Rec) THEN Rec[d] ELSE "eof">>, FALSE)
=============================================================================
