---------------------------- MODULE CodecTrace ----------------------------
(* Direction B for C19: what the real `conn::listen` read loop handed to a     *)
(* MessageHandler and what it did to the socket, recorded by `h_codec record`, *)
(* is accepted iff it is what CodecConn.tla's reader loop (run silently on the *)
(* recorded frame sequence, all bytes delivered) hands over and does: unknown  *)
(* types are skipped, an error result ends the loop and closes the socket -    *)
(* nothing behind a refused frame is delivered, and the reader closes the      *)
(* connection itself (before the writing peer ended the stream).  Header       *)
(* batches of one list and chunks of one attachment are merged on both sides   *)
(* (grouping is free).                                                         *)
EXTENDS CodecConn, Json, IOUtils
Rec == ndJsonDeserialize(IOEnv.TRACE)
VARIABLES l, seen
tvars == <<cvars, l, seen>>

E == Rec[l]
\* the next recorded event is of kind k / it is consumed (register 7: first event not yet matched;
\* only advanced once every guard of the action holds, so that it names the rejected event)
At(k) == l <= Len(Rec) /\ Rec[l].k = k
Step == l' = l + 1 /\ TLCSet(7, l + 1)
Finished == sock = "closed"
\* what the handler gets to see (batches / chunks merged)
Handed == Norm(handed)
\* the loop ended on an error result other than the end of the stream
Refused == \E j \in 1..Len(out) : out[j].r = "err" /\ out[j].why # "eof"

TInit == /\ stream = <<>> /\ avail = 0 /\ pos = 0 /\ buf = 0 /\ pre = 0 /\ pend = 0 /\ nl = 0
         /\ st = NoneSt /\ pc = "call" /\ want = -1 /\ out = <<>> /\ halted = FALSE /\ done = TRUE
         /\ tmo = "body" /\ sil = FALSE
         /\ proc = 0 /\ handed = <<>> /\ sock = "closed"
         /\ l = 1 /\ seen = 0 /\ TLCSet(7, 1)

TReset == /\ At("Reset") /\ Finished /\ Step
          /\ stream' = E.frames /\ avail' = Total(E.frames)
          /\ pos' = 0 /\ buf' = 0 /\ pre' = 0 /\ pend' = 0 /\ nl' = 0
          /\ st' = NoneSt /\ pc' = "call" /\ want' = -1 /\ out' = <<>> /\ halted' = FALSE /\ done' = FALSE
          /\ tmo' = "body" /\ sil' = FALSE
          /\ proc' = 0 /\ handed' = <<>> /\ sock' = "open"
          /\ seen' = 0

\* the reader loop of CodecConn.tla, unlogged
TRun == ~Finished /\ CNext /\ UNCHANGED <<l, seen>>

TDeliver == /\ Finished /\ At("Deliver")
            /\ seen < Len(Handed)
            /\ LET x == Handed[seen + 1] IN
               /\ E.r = x.r /\ E.t = x.t /\ E.n = x.n /\ E.rem = x.rem
               /\ E.ok /\ x.ok
            /\ Step
            /\ seen' = seen + 1
            /\ UNCHANGED cvars

\* the loop ended (end of stream or refusal) after handing over everything, attachments on disk;
\* after a refusal the reader itself closed the socket while the peer's side was still open
TClosed == /\ Finished /\ At("Closed")
           /\ seen = Len(Handed)
           /\ E.closed /\ E.files_ok
           /\ Refused => E.before_eof
           /\ Step
           /\ UNCHANGED <<cvars, seen>>

TNext == TReset \/ TRun \/ TDeliver \/ TClosed
TSpec == TInit /\ [][TNext]_tvars

Accepted == LET d == TLCGet(7) IN
            IF d = Len(Rec) + 1 THEN TRUE
            ELSE Print(<<"TRACE-REJECTED at event", d, IF d <= Len(Rec) THEN Rec[d] ELSE "eof">>, FALSE)
=========================================================================
