---------------------------- MODULE CodecTrace ----------------------------
(* Direction B for C19: what the real `conn::listen` read loop handed to a     *)
(* MessageHandler, recorded by `h_codec record`, is accepted iff it is what    *)
(* Codec.tla's machine (run silently on the recorded frame sequence, all bytes *)
(* delivered) returns, minus what conn.rs keeps to itself (unknown types are   *)
(* skipped, errors end the loop).  Header batches of one list and chunks of    *)
(* one attachment are merged on both sides (grouping is free).                 *)
EXTENDS Codec, Json, IOUtils
Rec == ndJsonDeserialize(IOEnv.TRACE)
VARIABLES l, seen
tvars == <<vars, l, seen>>

E == Rec[l]
IsEvent(k) == l <= Len(Rec) /\ Rec[l].k = k /\ l' = l + 1 /\ TLCSet(7, l + 1)
Finished == done \/ halted
\* what the handler gets to see
Handed == SelectSeq(Norm(out), LAMBDA x : x.r \in {"msg", "headers", "att"})

TInit == /\ stream = <<>> /\ avail = 0 /\ pos = 0 /\ buf = 0 /\ pre = 0 /\ pend = 0 /\ nl = 0
         /\ st = NoneSt /\ pc = "call" /\ want = -1 /\ out = <<>> /\ halted = FALSE /\ done = TRUE
         /\ tmo = "body" /\ sil = FALSE
         /\ l = 1 /\ seen = 0 /\ TLCSet(7, 1)

TReset == /\ IsEvent("Reset") /\ Finished
          /\ stream' = E.frames /\ avail' = Total(E.frames)
          /\ pos' = 0 /\ buf' = 0 /\ pre' = 0 /\ pend' = 0 /\ nl' = 0
          /\ st' = NoneSt /\ pc' = "call" /\ want' = -1 /\ out' = <<>> /\ halted' = FALSE /\ done' = FALSE
          /\ tmo' = "body" /\ sil' = FALSE
          /\ seen' = 0

\* the machine of Codec.tla, unlogged
TRun == ~Finished /\ Next /\ UNCHANGED <<l, seen>>

TDeliver == /\ Finished /\ IsEvent("Deliver")
            /\ seen < Len(Handed)
            /\ LET x == Handed[seen + 1] IN
               /\ E.r = x.r /\ E.t = x.t /\ E.n = x.n /\ E.rem = x.rem
               /\ E.ok /\ x.ok
            /\ seen' = seen + 1
            /\ UNCHANGED vars

\* the loop ended (end of stream or refusal) after handing over everything, attachments on disk
TClosed == /\ Finished /\ IsEvent("Closed")
           /\ seen = Len(Handed)
           /\ E.closed /\ E.files_ok
           /\ UNCHANGED <<vars, seen>>

TNext == TReset \/ TRun \/ TDeliver \/ TClosed
TSpec == TInit /\ [][TNext]_tvars

Accepted == LET d == TLCGet(7) IN
            IF d = Len(Rec) + 1 THEN TRUE
            ELSE Print(<<"TRACE-REJECTED at event", d, IF d <= Len(Rec) THEN Rec[d] ELSE "eof">>, FALSE)
=========================================================================
