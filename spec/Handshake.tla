----------------------------- MODULE Handshake -----------------------------
(***************************************************************************)
(* C19 - the Hand/Shake exchange of p2p/src/handshake.rs.                  *)
(* Nodes own a protocol version, a genesis hash and a ring of the nonces   *)
(* they recently sent (Handshake.nonces).  A connection runs               *)
(*   Start(a,b)  a = Handshake::initiate: fresh nonce into a's ring, Hand  *)
(*   Accept      b = Handshake::accept: genesis check, nonce-in-own-ring   *)
(*               check, version negotiation, Shake                         *)
(*   Finish      a reads the Shake: genesis check, version negotiation     *)
(*   Lose        the connection breaks before the Hand arrives (the nonce  *)
(*               was recorded by next_nonce all the same)                  *)
(* a = b is a node dialling one of its own addresses.                      *)
(* AcceptOutcome / InitiateOutcome are the two decision functions; the     *)
(* harness runs the real accept / initiate against a raw peer for every    *)
(* argument combination (MC_Handshake), and replays one long scripted       *)
(* behaviour of a single Handshake object whose number of outbound         *)
(* initiations exceeds the real NONCES_CAP (MC_HandshakeRing).             *)
(***************************************************************************)
EXTENDS Integers, Sequences, FiniteSets, TLC

CONSTANTS Nodes, Versions, Genesis,
          RingCap,     \* NONCES_CAP (100 in the code; the ring keeps RingCap - 1 nonces)
          MaxConns

VARIABLES ver, gen, ring, nonce, nconn, c
vars == <<ver, gen, ring, nonce, nconn, c>>

Min(a, b) == IF a < b THEN a ELSE b
Range(s) == {s[i] : i \in DOMAIN s}
\* extra: bytes in the body of the Hand / Shake frame behind what the message needs
\* over:  "" or the length the frame header announces when that is above the limit of the message
\*        type (4 x 128 for Hand, 4 x 88 for Shake), as a decimal string: the u64 field goes far
\*        beyond TLC's integers
NoMsg == [version |-> 0, genesis |-> "", nonce |-> 0, extra |-> 0, over |-> ""]
Out(r, v) == [res |-> r, version |-> v]
Idle == [stage |-> "idle", from |-> "", to |-> "", hand |-> NoMsg, shake |-> NoMsg,
         resI |-> Out("none", 0), resA |-> Out("none", 0)]

\* Handshake::next_nonce: push_back, then pop_front once the capacity is reached
Push(r, n) == LET r2 == Append(r, n) IN IF Len(r2) >= RingCap THEN Tail(r2) ELSE r2

\* Handshake::accept on a Hand message h, by a node with version lv, genesis g, nonce ring rg
AcceptOutcome(lv, g, rg, h) ==
  IF h.over # "" THEN Out("toolarge", 0)     \* refused on the 11 header bytes (MsgHeaderWrapper::read), nothing of the body read
  ELSE IF h.extra > 0 THEN Out("badlen", 0)  \* the statement: length inconsistent with the content is refused
  ELSE IF h.genesis # g THEN Out("genesis", 0)
  ELSE IF h.nonce \in Range(rg) THEN Out("self", 0)
  ELSE Out("ok", Min(lv, h.version))          \* negotiate_protocol_version
\* Handshake::initiate on the Shake reply s
InitiateOutcome(lv, g, s) ==
  IF s.over # "" THEN Out("toolarge", 0) ELSE
  IF s.extra > 0 THEN Out("badlen", 0) ELSE
  IF s.genesis # g THEN Out("genesis", 0) ELSE Out("ok", Min(lv, s.version))

Init == /\ ver \in [Nodes -> Versions] /\ gen \in [Nodes -> Genesis]
        /\ ring = [n \in Nodes |-> <<>>] /\ nonce = 1 /\ nconn = 0 /\ c = Idle

Start(a, b) ==
  /\ c.stage = "idle" /\ nconn < MaxConns
  /\ ring' = [ring EXCEPT ![a] = Push(ring[a], nonce)]
  /\ nonce' = nonce + 1 /\ nconn' = nconn + 1
  /\ c' = [Idle EXCEPT !.stage = "handSent", !.from = a, !.to = b,
                       !.hand = [version |-> ver[a], genesis |-> gen[a], nonce |-> nonce, extra |-> 0, over |-> ""]]
  /\ UNCHANGED <<ver, gen>>

Accept ==
  /\ c.stage = "handSent"
  /\ LET b == c.to  o == AcceptOutcome(ver[b], gen[b], ring[b], c.hand) IN
     c' = IF o.res = "ok"
          THEN [c EXCEPT !.stage = "shakeSent", !.resA = o,
                         !.shake = [version |-> ver[b], genesis |-> gen[b], nonce |-> 0, extra |-> 0, over |-> ""]]
          ELSE [c EXCEPT !.stage = "closed", !.resA = o, !.resI = Out("closed", 0)]
  /\ UNCHANGED <<ver, gen, ring, nonce, nconn>>

Finish ==
  /\ c.stage = "shakeSent"
  /\ c' = [c EXCEPT !.stage = "done", !.resI = InitiateOutcome(ver[c.from], gen[c.from], c.shake)]
  /\ UNCHANGED <<ver, gen, ring, nonce, nconn>>

\* the dialled peer resets the connection / the Hand cannot be written: `initiate` fails, the
\* nonce stays in the ring
Lose ==
  /\ c.stage = "handSent"
  /\ c' = [c EXCEPT !.stage = "lost", !.resI = Out("closed", 0)]
  /\ UNCHANGED <<ver, gen, ring, nonce, nconn>>

Reset == /\ c.stage \in {"done", "closed", "lost"} /\ c' = Idle
         /\ UNCHANGED <<ver, gen, ring, nonce, nconn>>

Next == (\E a, b \in Nodes : Start(a, b)) \/ Accept \/ Finish \/ Lose \/ Reset
Spec == Init /\ [][Next]_vars

---------------------------------------------------------------------------
TypeOK == /\ c.stage \in {"idle", "handSent", "shakeSent", "done", "closed", "lost"}
          /\ \A n \in Nodes : Len(ring[n]) < RingCap
\* the nonce of the handshake in flight is in the ring of the node that sent it, however many
\* handshakes that node has initiated before (what SelfRefused rests on)
InFlightRemembered == c.stage \in {"handSent", "shakeSent"} => c.hand.nonce \in Range(ring[c.from])
\* both ends settle on the lower of the two versions
Negotiated == c.stage = "done" =>
                /\ c.resA = Out("ok", Min(ver[c.from], ver[c.to]))
                /\ c.resI = c.resA
\* a different genesis is refused, and no Shake is sent
GenesisRefused == (c.stage \in {"done", "closed"} /\ gen[c.from] # gen[c.to]) =>
                    c.stage = "closed" /\ c.resA.res = "genesis" /\ c.shake = NoMsg
\* a node never completes a handshake with itself
SelfRefused == (c.stage \in {"done", "closed"} /\ c.from = c.to) =>
                 c.stage = "closed" /\ c.resA.res = "self" /\ c.shake = NoMsg
\* a connection between different nodes of one chain is never refused
NoFalseRefusal == (c.stage \in {"done", "closed"} /\ c.from # c.to /\ gen[c.from] = gen[c.to]) =>
                    c.stage = "done" /\ c.resI.res = "ok"
=============================================================================
