------------------------------- MODULE Locks -------------------------------
(***************************************************************************)
(* Lock protocols of the public Chain operations (property C17, deadlock   *)
(* clause).  A protocol is the sequence of lock events one call performs   *)
(* on the chain's RwLocks (header MMR "hp", txhashset "tx", any other      *)
(* traced lock "o<k>") and on LMDB's single-writer mutex "db".  The        *)
(* protocols are CONSTANTS recorded from the real code through the         *)
(* cfg(grin_verif) traced RwLock, so a change that reorders acquisitions   *)
(* changes the constant.  Threads pick protocols nondeterministically.     *)
(* RwLock semantics are parking_lot's: fair — a reader blocks while a      *)
(* writer holds OR waits (so recursive read acquisition can deadlock).     *)
(***************************************************************************)
EXTENDS Naturals, Sequences, FiniteSets

CONSTANTS ProtosIn,    \* Seq(Seq([op: STRING, lock: STRING]))  op in {"r_acq","r_rel","w_acq","w_rel","m_acq","m_rel"}
          NThreads,
          OpsPerThread

Threads == 1..NThreads
VARIABLES Protos,  \* = ProtosIn, read once (the constant comes from a file)
          pc,      \* [t -> [p: protocol index or 0, i: next step, done: ops finished]]
          readers, \* [lock -> bag as function thread -> count]
          writer,  \* [lock -> thread or 0]
          wq       \* [lock -> set of threads waiting to write]
vars == <<Protos, pc, readers, writer, wq>>
LockNames == DOMAIN writer

Init == \E P \in {ProtosIn} :
        LET names == UNION {{P[i][j].lock : j \in 1..Len(P[i])} : i \in 1..Len(P)} IN
        /\ Protos = P
        /\ pc = [t \in Threads |-> [p |-> 0, i |-> 1, done |-> 0]]
        /\ readers = [l \in names |-> [t \in Threads |-> 0]]
        /\ writer = [l \in names |-> 0]
        /\ wq = [l \in names |-> {}]

NoReaders(l) == \A t \in Threads : readers[l][t] = 0
Cur(t) == Protos[pc[t].p][pc[t].i]
Advance(t) == IF pc[t].i = Len(Protos[pc[t].p])
              THEN pc' = [pc EXCEPT ![t] = [p |-> 0, i |-> 1, done |-> @.done + 1]]
              ELSE pc' = [pc EXCEPT ![t].i = @ + 1]

Pick(t) == /\ pc[t].p = 0 /\ pc[t].done < OpsPerThread
           /\ \E k \in 1..Len(Protos) : Len(Protos[k]) > 0 /\ pc' = [pc EXCEPT ![t].p = k, ![t].i = 1]
           /\ UNCHANGED <<readers, writer, wq>>

\* a writer first announces itself (this is what blocks new readers), then acquires
Announce(t) == /\ pc[t].p # 0 /\ Cur(t).op \in {"w_acq", "m_acq"} /\ t \notin wq[Cur(t).lock]
               /\ wq' = [wq EXCEPT ![Cur(t).lock] = @ \cup {t}]
               /\ UNCHANGED <<pc, readers, writer>>

CanStep(t) ==
  /\ pc[t].p # 0
  /\ LET c == Cur(t) IN
     CASE c.op = "r_acq" -> writer[c.lock] = 0 /\ wq[c.lock] = {}
       [] c.op \in {"w_acq", "m_acq"} -> t \in wq[c.lock] /\ writer[c.lock] = 0 /\ NoReaders(c.lock)
       [] OTHER -> TRUE

Step(t) ==
  /\ CanStep(t)
  /\ LET c == Cur(t) IN
     /\ CASE c.op = "r_acq" -> /\ readers' = [readers EXCEPT ![c.lock][t] = @ + 1] /\ UNCHANGED <<writer, wq>>
          [] c.op = "r_rel" -> /\ readers' = [readers EXCEPT ![c.lock][t] = IF @ > 0 THEN @ - 1 ELSE 0] /\ UNCHANGED <<writer, wq>>
          [] c.op \in {"w_acq", "m_acq"} -> /\ writer' = [writer EXCEPT ![c.lock] = t]
                                            /\ wq' = [wq EXCEPT ![c.lock] = @ \ {t}] /\ UNCHANGED readers
          [] c.op \in {"w_rel", "m_rel"} -> /\ writer' = [writer EXCEPT ![c.lock] = 0] /\ UNCHANGED <<readers, wq>>
     /\ Advance(t)

Next == (\E t \in Threads : Pick(t) \/ Announce(t) \/ Step(t)) /\ UNCHANGED Protos
Spec == Init /\ [][Next]_vars

Finished(t) == pc[t].p = 0 /\ pc[t].done = OpsPerThread
Enabled1(t) == (pc[t].p = 0 /\ pc[t].done < OpsPerThread)
               \/ (pc[t].p # 0 /\ Cur(t).op \in {"w_acq", "m_acq"} /\ t \notin wq[Cur(t).lock])
               \/ CanStep(t)
\* no reachable state in which some call is unfinished and nobody can move
NoDeadlock == (\E t \in Threads : ~Finished(t)) => (\E t \in Threads : Enabled1(t))
\* mutual exclusion sanity of the lock model itself
LockSane == \A l \in LockNames : writer[l] # 0 => NoReaders(l)
=============================================================================
