------------------------------- MODULE Locks -------------------------------
(***************************************************************************)
(* Lock protocols of the public Chain operations (property C17, deadlock   *)
(* clause).  A protocol is the sequence of lock events one call performs   *)
(* on the chain's RwLocks (header MMR "hp", txhashset "tx", any other      *)
(* traced lock "o<k>") and on LMDB's single-writer mutex "db".  The        *)
(* protocols are CONSTANTS recorded from the real code through the         *)
(* cfg(grin_verif) traced RwLock, so a change that reorders acquisitions   *)
(* changes the constant.  Threads pick protocols nondeterministically.     *)
(* RwLock semantics are parking_lot's: fair — a reader blocks while a      *)
(* writer holds OR waits (so recursive read acquisition can deadlock).     *)
(***************************************************************************)
EXTENDS Naturals, Sequences, FiniteSets, TLC

CONSTANTS ProtosIn,    \* Seq(Seq([op: STRING, lock: STRING]))  op in {"r_acq","r_rel","w_acq","w_rel","m_acq","m_rel"}
          ViewsIn,     \* Seq([op: STRING, proto: Seq([op, lock])]): the WHOLE protocol of each recorded call, by name
          NThreads,
          OpsPerThread
(* ProtosIn holds the SECTIONS of the recorded calls: a call's protocol is cut wherever the thread holds no  *)
(* lock at all.  A thread that is between two sections of a call holds nothing and waits for nothing, so it   *)
(* is part of no wait cycle: a deadlock of whole calls exists iff one exists among threads that each run one  *)
(* section, and identical sections of different calls need to be explored once.                              *)

Threads == 1..NThreads
VARIABLES Protos,  \* = ProtosIn, read once (the constant comes from a file)
          Views,   \* = ViewsIn, read once
          pc,      \* [t -> [p: protocol index or 0, i: next step, done: ops finished]]
          readers, \* [lock -> bag as function thread -> count]
          writer,  \* [lock -> thread or 0]
          wq       \* [lock -> set of threads waiting to write]
vars == <<Protos, Views, pc, readers, writer, wq>>
LockNames == DOMAIN writer

Init == \E P \in {ProtosIn} :
        LET names == UNION {{P[i][j].lock : j \in 1..Len(P[i])} : i \in 1..Len(P)} IN
        /\ Protos = P
        /\ Views \in {ViewsIn}
        /\ pc = [t \in Threads |-> [p |-> 0, i |-> 1, done |-> 0]]
        /\ readers = [l \in names |-> [t \in Threads |-> 0]]
        /\ writer = [l \in names |-> 0]
        /\ wq = [l \in names |-> {}]

NoReaders(l) == \A t \in Threads : readers[l][t] = 0
Cur(t) == Protos[pc[t].p][pc[t].i]
Advance(t) == IF pc[t].i = Len(Protos[pc[t].p])
              THEN pc' = [pc EXCEPT ![t] = [p |-> 0, i |-> 1, done |-> @.done + 1]]
              ELSE pc' = [pc EXCEPT ![t].i = @ + 1]

Pick(t) == /\ pc[t].p = 0 /\ pc[t].done < OpsPerThread
           /\ \E k \in 1..Len(Protos) : Len(Protos[k]) > 0 /\ pc' = [pc EXCEPT ![t].p = k, ![t].i = 1]
           /\ UNCHANGED <<readers, writer, wq>>

\* a writer first announces itself (this is what blocks new readers), then acquires
Announce(t) == /\ pc[t].p # 0 /\ Cur(t).op \in {"w_acq", "m_acq"} /\ t \notin wq[Cur(t).lock]
               /\ wq' = [wq EXCEPT ![Cur(t).lock] = @ \cup {t}]
               /\ UNCHANGED <<pc, readers, writer>>

CanStep(t) ==
  /\ pc[t].p # 0
  /\ LET c == Cur(t) IN
     CASE c.op = "r_acq" -> writer[c.lock] = 0 /\ wq[c.lock] = {}
       [] c.op \in {"w_acq", "m_acq"} -> t \in wq[c.lock] /\ writer[c.lock] = 0 /\ NoReaders(c.lock)
       [] OTHER -> TRUE

Step(t) ==
  /\ CanStep(t)
  /\ LET c == Cur(t) IN
     /\ CASE c.op = "r_acq" -> /\ readers' = [readers EXCEPT ![c.lock][t] = @ + 1] /\ UNCHANGED <<writer, wq>>
          [] c.op = "r_rel" -> /\ readers' = [readers EXCEPT ![c.lock][t] = IF @ > 0 THEN @ - 1 ELSE 0] /\ UNCHANGED <<writer, wq>>
          [] c.op \in {"w_acq", "m_acq"} -> /\ writer' = [writer EXCEPT ![c.lock] = t]
                                            /\ wq' = [wq EXCEPT ![c.lock] = @ \ {t}] /\ UNCHANGED readers
          [] c.op \in {"w_rel", "m_rel"} -> /\ writer' = [writer EXCEPT ![c.lock] = 0] /\ UNCHANGED <<readers, wq>>
     /\ Advance(t)

Next == (\E t \in Threads : Pick(t) \/ Announce(t) \/ Step(t)) /\ UNCHANGED <<Protos, Views>>
Spec == Init /\ [][Next]_vars

Finished(t) == pc[t].p = 0 /\ pc[t].done = OpsPerThread
Enabled1(t) == (pc[t].p = 0 /\ pc[t].done < OpsPerThread)
               \/ (pc[t].p # 0 /\ Cur(t).op \in {"w_acq", "m_acq"} /\ t \notin wq[Cur(t).lock])
               \/ CanStep(t)
\* no reachable state in which some call is unfinished and nobody can move
NoDeadlock == (\E t \in Threads : ~Finished(t)) => (\E t \in Threads : Enabled1(t))
\* mutual exclusion sanity of the lock model itself
LockSane == \A l \in LockNames : writer[l] # 0 => NoReaders(l)

-----------------------------------------------------------------------------
(* One view.  The result of these operations is ONE view of the chain state (property C17: "data read   *)
(* under one view is mutually consistent"; mechanism: "read paths taking txhashset.read() only /        *)
(* header_pmmr.read() then txhashset.read()", "header_pmmr -> txhashset -> batch held across the        *)
(* pipeline and commit").  The recorded protocol of such a call must hold all locks of its view         *)
(* TOGETHER at some point and, where once = TRUE, take each of them exactly once, so that no writer     *)
(* can slip in between two parts of the view (a call that reads the output position under one           *)
(* acquisition and the header MMR under another returns a header that need not contain the output).     *)
V(L, o) == [locks |-> L, once |-> o]
ViewTable ==
  [ get_unspent |-> V({"tx"}, TRUE), get_output_pos |-> V({"tx"}, TRUE),
    unspent_outputs_by_pmmr_index |-> V({"tx"}, TRUE),
    get_header_by_height |-> V({"hp"}, TRUE),
    get_header_for_output |-> V({"hp", "tx"}, TRUE), get_unspent_output_at |-> V({"hp", "tx"}, TRUE),
    validate_tx |-> V({"hp", "tx"}, TRUE), validate_inputs |-> V({"hp", "tx"}, TRUE),
    verify_coinbase_maturity |-> V({"hp", "tx"}, TRUE),
    get_merkle_proof |-> V({"hp", "tx"}, TRUE), get_merkle_proof_for_pos |-> V({"tx"}, TRUE),
    set_txhashset_roots |-> V({"hp", "tx"}, TRUE), set_prev_root_only |-> V({"hp"}, TRUE),
    get_locator_hashes |-> V({"hp"}, TRUE),
    validate_fast |-> V({"hp", "tx"}, TRUE), validate_full |-> V({"hp", "tx"}, TRUE),
    segment_bitmap |-> V({"tx"}, TRUE), segment_output |-> V({"tx"}, TRUE),
    segment_rangeproof |-> V({"tx"}, TRUE), segment_kernel |-> V({"tx"}, TRUE),
    txhashset_read |-> V({"hp", "tx"}, TRUE),
    process_block_header |-> V({"hp", "tx", "db"}, TRUE), sync_block_headers |-> V({"hp", "tx", "db"}, TRUE),
    reset_chain_head |-> V({"hp", "tx", "db"}, TRUE),
    compact |-> V({"hp", "tx", "db"}, FALSE) ]      \* (the archive header is looked up before the section)

IsAcq(e) == e.op \in {"r_acq", "w_acq", "m_acq"}
RECURSIVE HeldAfter(_, _)
IsRel(e) == e.op \in {"r_rel", "w_rel", "m_rel"}
HeldAfter(p, i) == IF i = 0 THEN {}
                   ELSE IF IsAcq(p[i]) THEN HeldAfter(p, i - 1) \cup {p[i].lock}
                   ELSE IF IsRel(p[i]) THEN HeldAfter(p, i - 1) \ {p[i].lock}
                   ELSE HeldAfter(p, i - 1)
AcqCount(p, lk) == Cardinality({i \in 1..Len(p) : IsAcq(p[i]) /\ p[i].lock = lk})
OneView(p, v) == /\ \E i \in 1..Len(p) : v.locks \subseteq HeldAfter(p, i)
                 /\ v.once => \A lk \in v.locks : AcqCount(p, lk) = 1
\* every recorded call that has an entry in the table is one view ...
ViewsOK == \A k \in 1..Len(Views) :
             Views[k].op \in DOMAIN ViewTable =>
               (OneView(Views[k].proto, ViewTable[Views[k].op]) \/ Print(<<"VIEW-SPLIT", Views[k].op>>, FALSE))
\* Guarded resources.  A recorded protocol may contain spans [use_beg r .. use_end r] in which the thread uses a
\* resource that is not a lock (hook events; today: "txfiles" = the live txhashset files being copied into the
\* state archive by txhashset_read / zip_read).  All locks guarding the resource must be held through the whole
\* span - an archive copied after the locks were released is a mixture of states as soon as a block, a rewind or
\* a compaction touches the files meanwhile.
Guards == [txfiles |-> {"tx"}]
GuardedOK == \A k \in 1..Len(Views) : \A i \in 1..Len(Views[k].proto) :
               LET e == Views[k].proto[i] IN
               (e.op \in {"use_beg", "use_end"} /\ e.lock \in DOMAIN Guards) =>
                 (Guards[e.lock] \subseteq HeldAfter(Views[k].proto, i) \/ Print(<<"UNGUARDED-USE", Views[k].op, e.lock>>, FALSE))
\* ... and every entry of the table has been recorded (no vacuous entry)
ViewsRecorded == \A o \in DOMAIN ViewTable :
                   (\E k \in 1..Len(Views) : Views[k].op = o) \/ Print(<<"VIEW-NOT-RECORDED", o>>, FALSE)
=============================================================================
