--------------------------- MODULE TxBalanceBatch ---------------------------
(***************************************************************************)
(* C01, clause "every kernel is signed under its own excess and every      *)
(* output carries a valid range proof" - the BATCH layer.                  *)
(*                                                                         *)
(* grin never verifies one signature / one range proof at a time: every    *)
(* acceptance path hands a slice of kernels (resp. commitments + proofs)   *)
(* to TxKernel::batch_sig_verify / Output::batch_verify_proofs:            *)
(*   TransactionBody::validate  - all outputs, all kernels of the body     *)
(*   Extension::verify_kernel_signatures - walks the positions of the      *)
(*       kernel MMR, pushes the leaves, flushes every KernelBatch = 5000   *)
(*       kernels and at the last position                                  *)
(*   Extension::verify_rangeproofs - walks the unspent leaves of the       *)
(*       output MMR, flushes every ProofBatch = 1000 proofs and once more  *)
(*       after the loop for the remainder                                  *)
(* A batch is n items (0-based positions) of which the positions in F are  *)
(* forged.  The definition: the batch is good iff no item is forged.  The  *)
(* module gives the implementation-shaped verifiers as "the set of         *)
(* positions that reach a libsecp call", the careless variants of them     *)
(* (remainder of a chunked loop dropped, final flush tied to the shape of  *)
(* the MMR, first / last / boundary item skipped), and the family of plans *)
(* (n, F) that is executed on the real functions.  TLC checks that the     *)
(* verifiers as written agree with the definition on every plan, that the  *)
(* closed forms used for the big sizes agree with the operational walks,   *)
(* and that the plan family tells every careless variant from the          *)
(* definition (so a real implementation that behaves like one of them      *)
(* cannot pass the replay).                                                *)
(***************************************************************************)
EXTENDS Integers, Sequences, FiniteSets, TLC

\* ---- definition
BatchOK(n, F) == F = {}
\* a verifier that looks at the positions in `checked` accepts iff none of them is forged
Accepts(checked, F) == checked \cap F = {}

KernelBatch == 5000      \* KERNEL_BATCH_SIZE in Extension::verify_kernel_signatures
ProofBatch  == 1000      \* default batch_size in Extension::verify_rangeproofs

\* ---- as written: one libsecp call over the whole slice
DirectChecked(n) == 0..(n - 1)

\* ---- the kernel MMR: leaf k (0-based) is followed by as many parents as k has trailing one bits
RECURSIVE TrailingOnes(_)
TrailingOnes(k) == IF k % 2 = 1 THEN 1 + TrailingOnes(k \div 2) ELSE 0
RECURSIVE Nodes(_)       \* node sequence in position order: leaf index, or -1 for a parent
Nodes(n) == IF n = 0 THEN <<>>
            ELSE Nodes(n - 1) \o <<n - 1>> \o [i \in 1..TrailingOnes(n - 1) |-> -1]
LastIsLeaf(n) == n > 0 /\ TrailingOnes(n - 1) = 0      \* <=> n odd

\* Extension::verify_kernel_signatures, operationally.  leafOnly = FALSE is the code as written
\* (the flush test runs at every position); TRUE ties the flush test to leaf positions.
RECURSIVE KWalk(_, _, _, _, _, _)
KWalk(nodes, p, buf, checked, B, leafOnly) ==
  IF p > Len(nodes) THEN checked
  ELSE LET leaf  == nodes[p] >= 0
           buf1  == IF leaf THEN buf \cup {nodes[p]} ELSE buf
           flush == (Cardinality(buf1) >= B \/ p >= Len(nodes)) /\ (leafOnly => leaf)
       IN  KWalk(nodes, p + 1, IF flush THEN {} ELSE buf1,
                 IF flush THEN checked \cup buf1 ELSE checked, B, leafOnly)
KernelWalkOp(n, B, leafOnly) == KWalk(Nodes(n), 1, {}, {}, B, leafOnly)

\* Extension::verify_rangeproofs, operationally, over m unspent leaves.  trailing = TRUE is the
\* code as written (remainder flushed after the loop).
RECURSIVE PWalk(_, _, _, _, _, _)
PWalk(m, i, buf, checked, B, trailing) ==
  IF i >= m THEN (IF trailing THEN checked \cup buf ELSE checked)
  ELSE LET buf1  == buf \cup {i}
           flush == Cardinality(buf1) >= B
       IN  PWalk(m, i + 1, IF flush THEN {} ELSE buf1, IF flush THEN checked \cup buf1 ELSE checked, B, trailing)
ProofWalkOp(m, B, trailing) == PWalk(m, 0, {}, {}, B, trailing)

\* ---- closed forms (what the big plans are judged with; checked against the walks on small sizes)
KernelWalkChecked(n, B) == 0..(n - 1)
ProofWalkChecked(m, B)  == 0..(m - 1)

\* ---- careless variants, as closed forms.  Each is a verifier somebody could write.
Careless == {"chunks_exact", "leaf_only_flush", "no_trailing_flush", "first_chunk_only",
             "skip_first", "skip_last", "boundary_item_dropped", "boundary_prev_dropped"}
FullChunks(n, B) == (n \div B) * B
CarelessChecked(c, n, B) ==
  CASE c = "chunks_exact"          -> IF n <= B THEN 0..(n - 1) ELSE 0..(FullChunks(n, B) - 1)
    [] c = "leaf_only_flush"       -> IF n % 2 = 1 THEN 0..(n - 1) ELSE 0..(FullChunks(n, B) - 1)
    [] c = "no_trailing_flush"     -> 0..(FullChunks(n, B) - 1)
    [] c = "first_chunk_only"      -> 0..((IF n <= B THEN n ELSE B) - 1)
    [] c = "skip_first"            -> 1..(n - 1)
    [] c = "skip_last"             -> 0..(n - 2)
    [] c = "boundary_item_dropped" -> {i \in 0..(n - 1) : i = 0 \/ i % B # 0}
    [] c = "boundary_prev_dropped" -> {i \in 0..(n - 1) : (i + 1) % B # 0}

\* ---- the plan family for one chunk / batch boundary B with multiples 1..K
BoundarySizes(B, K) == {s \in {k * B + d : k \in 1..K, d \in {-1, 0, 1, 2}} : s >= 1}
SmallSizes == 1..3
BoundaryPositions(n, B, K) ==
  {p \in {0, n - 1} \cup {k * B + d : k \in 1..K, d \in {-1, 0}} : p >= 0 /\ p < n}
\* the cheap subset: the last item always; the first item and the items around the last boundary at
\* sizes just above a boundary
LeanPositions(n, B) ==
  {p \in {n - 1} \cup (IF n % B = 1 /\ n > B THEN {0, n - 2} ELSE {}) \cup (IF n % B = 0 THEN {0} ELSE {}) :
     p >= 0 /\ p < n}

Plan(kind, route, n, F) == [kind |-> kind, route |-> route, n |-> n, forged |-> F]
SmallPlans(kind, route) ==
  {Plan(kind, route, n, {}) : n \in SmallSizes}
  \cup UNION {{Plan(kind, route, n, {p}) : p \in 0..(n - 1)} : n \in SmallSizes}
FamilyPlans(kind, route, Bs, K, lean) ==
  SmallPlans(kind, route)
  \cup {Plan(kind, route, n, {}) : n \in UNION {IF lean THEN {k * B + 1 : k \in 1..K} ELSE BoundarySizes(B, K) : B \in Bs}}
  \cup UNION {UNION {{Plan(kind, route, n, {p}) :
                        p \in (IF lean THEN LeanPositions(n, B) ELSE BoundaryPositions(n, B, K))} :
                      n \in BoundarySizes(B, K)} : B \in Bs}

\* the family tells careless variant c with boundary B from the definition: some plan with a forged
\* item is accepted by the variant
Kills(plans, c, B) == \E p \in plans : p.forged # {} /\ Accepts(CarelessChecked(c, p.n, B), p.forged)

\* the plan family of a single boundary kills every careless variant built on that boundary
FamilyKillsAll(B, K, lean) ==
  LET ps == FamilyPlans("sig", "batch", {B}, K, lean)
  IN  \A c \in Careless : Kills(ps, c, B)

\* the walks as written agree with the definition and with their closed forms; the operational
\* careless walks agree with their closed forms (so that the closed forms may stand for them)
WalksAgree(n, B) ==
  /\ KernelWalkOp(n, B, FALSE) = KernelWalkChecked(n, B)
  /\ ProofWalkOp(n, B, TRUE) = ProofWalkChecked(n, B)
  /\ KernelWalkOp(n, B, TRUE) = CarelessChecked("leaf_only_flush", n, B)
  /\ ProofWalkOp(n, B, FALSE) = CarelessChecked("no_trailing_flush", n, B)
  /\ LastIsLeaf(n) <=> (n % 2 = 1)
  /\ \A F \in {{}} \cup {{p} : p \in 0..(n - 1)} :
        /\ Accepts(KernelWalkOp(n, B, FALSE), F) <=> BatchOK(n, F)
        /\ Accepts(ProofWalkOp(n, B, TRUE), F) <=> BatchOK(n, F)
        /\ Accepts(DirectChecked(n), F) <=> BatchOK(n, F)
=============================================================================
